/-
  Tranp.Str — Python `str` primitives over `List Char` (DESIGN.md §4).
  No imports: this file is part of the executable model and of the driver.
-/
namespace Tranp

/-- Python `str` is modelled as `List Char` (kernel reduction and induction work on lists). -/
abbrev Str := List Char

namespace Str

/-- `s.split(d)` for a one-character delimiter: always at least one piece. -/
def splitOn (d : Char) : Str → List Str
  | [] => [[]]
  | c :: cs =>
    if c = d then [] :: splitOn d cs
    else match splitOn d cs with
      | [] => [[c]]
      | p :: ps => (c :: p) :: ps

/-- `d.join(xs)`. -/
def join (d : Str) : List Str → Str
  | [] => []
  | [x] => x
  | x :: y :: xs => x ++ d ++ join d (y :: xs)

/-- `s.count(d)` for a one-character pattern. -/
def count (d : Char) (s : Str) : Nat := (s.filter (· = d)).length

/-- `s.startswith(p)`. -/
def startsWith : Str → Str → Bool
  | _, [] => true
  | [], _ :: _ => false
  | c :: cs, p :: ps => c = p && startsWith cs ps

/-- `s.endswith(p)`. -/
def endsWith (s p : Str) : Bool := startsWith s.reverse p.reverse

/-- `s.find(p)`: first index at which `p` occurs, `none` for -1. -/
def find (s p : Str) : Option Nat :=
  go s 0
where
  go : Str → Nat → Option Nat
    | [], i => if p = [] then some i else none
    | c :: cs, i => if startsWith (c :: cs) p then some i else go cs (i + 1)

/-- `s.strip(chars)` restricted to a single character class given as predicate. -/
def lstripBy (f : Char → Bool) : Str → Str
  | [] => []
  | c :: cs => if f c then lstripBy f cs else c :: cs

def rstripBy (f : Char → Bool) (s : Str) : Str := (lstripBy f s.reverse).reverse

def stripBy (f : Char → Bool) (s : Str) : Str := rstripBy f (lstripBy f s)

/-! ### decimal numbers (`str(int)` / `int(str)` for the plain ASCII form) -/

def digitChar (d : Nat) : Char := Char.ofNat (48 + d)

/-- `str(n)` for a natural number. -/
def natToDec (n : Nat) : Str :=
  if n < 10 then [digitChar n] else natToDec (n / 10) ++ [digitChar (n % 10)]
decreasing_by omega

def decVal (c : Char) : Option Nat :=
  if 48 ≤ c.toNat ∧ c.toNat ≤ 57 then some (c.toNat - 48) else none

def decFold (acc : Nat) : Str → Option Nat
  | [] => some acc
  | c :: cs => match decVal c with
    | some d => decFold (acc * 10 + d) cs
    | none => none

/-- `int(s)` for a non-empty string of ASCII digits; `none` = ValueError (other accepted spellings of
    Python's `int()` — sign `+`, blanks, underscores, non-ASCII digits — are outside the model and are never generated). -/
def decToNat? : Str → Option Nat
  | [] => none
  | s => decFold 0 s

/-- `int(s)` with an optional leading minus. -/
def decToInt? : Str → Option Int
  | '-' :: s => (decToNat? s).map (fun n => - (n : Int))
  | s => (decToNat? s).map (fun n => (n : Int))

def intToDec (i : Int) : Str :=
  if i < 0 then '-' :: natToDec i.natAbs else natToDec i.natAbs

/-! ### I/O boundary helpers for the driver (not used in theorems) -/

def hexVal (c : Char) : Option Nat :=
  if 48 ≤ c.toNat ∧ c.toNat ≤ 57 then some (c.toNat - 48)
  else if 97 ≤ c.toNat ∧ c.toNat ≤ 102 then some (c.toNat - 87)
  else if 65 ≤ c.toNat ∧ c.toNat ≤ 70 then some (c.toNat - 55)
  else none

def unhexBytes : List Char → Option (List UInt8)
  | [] => some []
  | [_] => none
  | a :: b :: rest => do
    let x ← hexVal a
    let y ← hexVal b
    let r ← unhexBytes rest
    pure (UInt8.ofNat (x * 16 + y) :: r)

/-- Decode the protocol's hex escape (`-` = empty string). -/
def unhex (s : String) : Option Str :=
  if s = "-" then some [] else
  match unhexBytes s.toList with
  | none => none
  | some bs => (String.fromUTF8? (ByteArray.mk bs.toArray)).map String.toList

def hexDigit (n : Nat) : Char := if n < 10 then Char.ofNat (48 + n) else Char.ofNat (87 + n)

/-- Encode for the protocol. -/
def hex (s : Str) : String :=
  let bs := (String.ofList s).toUTF8.toList
  if bs.isEmpty then "-" else
  String.ofList (bs.flatMap fun b => [hexDigit (b.toNat / 16), hexDigit (b.toNat % 16)])

end Str
end Tranp
