"""Regenerates MANIFEST.json from the per-property table below (keeps the file schema-valid at all times)."""
import json
import os

HERE = os.path.dirname(os.path.abspath(__file__))

TB = 'Lean 4.33 kernel + {propext, Classical.choice, Quot.sound}; hand-written model tied to /repo by translator + correspondence streams; harness 3.12 shim; CPython as oracle.'

CHECKS = {
	'C10': {
		'text': 'Lean theorems over an executable model of ASTFinder/EntryPath/EntryCache/Nodes/NodeResolver: pluck∘full_pathfy = id for every tree, paths distinct and as many as entries, path-string codec, ids = pre-order rank, resolver order-independence for every feature function. Tied to the code by two correspondence streams (random EntryOfDict trees with synthetic node classes; lark parse trees of real modules) and a law search on the real code. Extended: Nodes.expand / values / EntryCache.group_by for any depth (groupBy_depth, values_document_order, expand_spec, expand_spec_full; counterexamples for the depth-3 cap and DSN.relativefy, reproduced on synthetic tags only).',
		'note': TB + ' match_feature of the real node classes is assumed to be a pure function of (tree, path); validated by query permutations on real modules.',
		'technique': 'Lean 4 proof (structural induction over nested tree) + differential correspondence with the Python implementation',
		'ref': 'DESIGN.md §5 C10',
	},
}

CHECKS['C09'] = {
	'text': 'Full on the model: for every node tree satisfying WF and every handler program that does not catch nested failures, Lean proves each handler event is exactly the per-property results of its own children (single/list, order), sibling results never leak, exec yields exactly one result and restores the stack-of-stacks, and nested runs are isolated (the last for all trees). Tied to the code by five correspondence streams (corpus, synthetic Node subclasses through the real Node.procedural/Procedure, malformed trees, real modules, generated programs) and an identity-valued search on the real Procedure. Extended: wf_necessary for every tree (WF weakened to exactly what is necessary), Node.prop_keys class cache proved history-independent for class tables with distinct names per MRO (counterexamples for the fixed-key variant and same-named subclasses), WF clause 2 tied to C10\'s expand model (under_empty_iff) and checked on real trees.',
	'note': TB + ' WF (terminal⇒no props; empty property expansion⇒empty _under_expand; no repeated prop key; annotation = run-time shape) is an obligation on definition/*.py that is checked (every exported tree + class table), not proved; each clause shown necessary by a kernel-evaluated witness. Nested-processing sentence is false for a handler that catches a nested failure (exec lacks finally): no such handler exists in tranp; witness replayed as information.',
	'technique': 'Lean 4 stack-machine model refined to a denotational semantics by mutual structural induction + differential correspondence + identity-valued search',
	'ref': 'DESIGN.md §5 C09, §10',
}

CHECKS['C19'] = {
	'text': 'Lean theorems over an executable model of DI/LazyDI (dictionaries exactly as the code keeps them, heap of containers, fuelled resolution): forward simulation onto a per-symbol Spec for every op sequence (refine, run_refines); singleton per binding generation; rebind freshness; frame of combine/clone; per-clone lazy materialisation; ValueError on unknown symbols; combine_right and invoke_fill for every history (true since the fix commits c3fd82c, 6d5a231); fuel sufficiency on ranked histories. Tied to the code by a differential op-sequence stream and searched against an independent Python reference of the ideal Spec. Extended: the production wiring as derived operations (di_container, per-module containers of providers/syntax/entrypoints.py): combine_shares, distinct_instances, no_leak, module_invoker_local; stream di-production (a logging LazyDI subclass defined in the harness replays a real App\'s ~6000 container calls through the model).',
	'note': TB + ' Generation counters are replaced by trace conditions. Dict non-aliasing is by correspondence (value-semantics model). Symbols are assumed importable with distinct full names; factories take positional parameters without defaults.',
	'technique': 'Lean 4 refinement proof (forward simulation + invariants by induction over op lists and fuel) + differential correspondence + reference-model search',
	'ref': 'DESIGN.md §5 C19, §10',
}
CHECKS['C13'] = {
	'text': 'Lean theorems over an executable model of tranp Lexer/Tokenizer/SourceMap parameterised by TokenDefinition() and gram_tokenizer() as dumped on every run: progress (termination), concat (raw tokens reproduce the source), totality over the alphabet, the span law, INDENT/DEDENT accounting (balanced iff every increase is one unit; counterexample for over-indented blocks), width invariance of _rebuild, post_filter on single logical lines. Tied to the code by three correspondence streams (generated sources, real modules and grammar files, malformed sources and token lists). Equality with CPython tokenize on the documented subset, layout rewrites, balance and the concat/span laws are searched on the real code. Extended: the token-level layout sentence in full (post_filter_norm, layout_tokens), character-level rewrite steps (lex_local, first_token_stable, layout_chars_blank / _comment / _comment_line) and width_end_to_end; side conditions decided for both generated definitions.',
	'note': TB + ' The full token-level layout sentence (across line breaks) and the character-level rewrites are search-only. CPython 3.12 tokenize is the oracle on the documented lexical subset (harness/lexgen.py).',
	'technique': 'Lean 4 proof (induction over fuel / token lists, decide over generated tables) + differential correspondence + metamorphic and CPython-oracle search',
	'ref': 'DESIGN.md §5 C13, §10',
}

CHECKS['C14'] = {
	'text': 'Lean theorems over an executable model of seqs.expand, ReflectionSerializer.serialize/deserialize/_deserialize_attrs and SymbolDB.to_json/import_json/_order_keys/unload/completed: expand is the pre-order flattening; rebuild∘flatten = id for every attribute forest of any width and depth (multi-digit index paths, path-string codec); same-parent paths are consecutive after the depth sort; import idempotence and completed; export-then-import restores every key of the module; the export-order law (import never refers to a later key) for every loaded table with acyclic class entries (true since fix commit 95feeba). Tied to the code by seven correspondence streams (real Symbol/Reflection/SymbolDB/ReflectionSerializer objects over stub nodes, generated multi-module programs, real modules); the law search runs on the real code alone. Extended: order_fuel for any table, cyclic_unimportable, object identity in attribute forests (expand_shared, attrs_rt_shared, visited_counterexample), deserialize_isolated, to_temporary_isolated with the shallow-copy counterexample; stream identity-stub.',
	'note': TB + ' SymOK and Loaded are hypotheses evaluated on every real table per run (always true so far). Node DSNs are opaque; only canonical decimal index components are modelled; fuel sufficiency of the order walk is proved under the rank hypothesis only.',
	'technique': 'Lean 4 proof (mutual structural induction over nested forests, invariants along the import/export loops) + differential correspondence + law search',
	'ref': 'DESIGN.md §5 C14, §10',
}
CHECKS['C15'] = {
	'text': 'Full on the model: view(loads(json(dumps t))) = view t proved for every tree shape on which dumps succeeds (guard exact: fails only on non-lark metas); everything derived through the Entry interface (entry cache, Nodes.source_map, quotation per path) is equal on restored and fresh trees. Tied to the code by three correspondence streams (real parse trees, random lark trees incl. malformed, loads on damaged dumps) and searched field by field through the real on-disk cache (fresh vs restored views and nodes, two generations). Extended: the JSON text level (printJson = compact json.dumps with ensure_ascii, total parseJson): text_rt, view_rt_text, truncated_rejected, truncated_cache_rejected; stream entry-text and a truncation search on the real saved bytes.',
	'note': TB + ' JSON text level is executed, not modelled.',
	'technique': 'Lean 4 proof (structural induction over the lark tree model) + differential correspondence + real-cache search',
	'ref': 'DESIGN.md §5 C15, §10',
}
CHECKS['C16'] = {
	'text': 'Partial: tranp-side span selection (tree meta / token positions / zeros), the minus-one shift, quotation arithmetic (marked columns = [begin,end) on single-line spans, to end of line on multi-line spans, tabs one-for-one), no quotation for position-less nodes, the self-hosted ErrorCollector caret range and survival of spans through the cache are proved on the model; nesting (child inside parent, siblings ordered) is proved under the hull model of lark propagate_positions, which is an assumption streamed against lark\'s real metas. That a span\'s text holds exactly the node\'s tokens is search-only (CPython tokenize as oracle), repeated on cache-restored trees. Extended: positions computed from the text and trees as token intervals (pos_mono, span_nest, span_siblings from one interface hypothesis validated against lark\'s real token stream), render_lines, loadLine_no_lf.',
	'note': TB + ' lark propagate_positions is assumed (hull model) and validated by the span-hull stream; CR line endings and non-UTF-8 input are outside the model.',
	'technique': 'Lean 4 proof (list/offset arithmetic, hull model) + four correspondence streams + CPython-tokenize oracle search',
	'ref': 'DESIGN.md §5 C16, §10',
}
CHECKS['C17'] = {
	'text': 'Full on the model with floats abstract: for every expression of the folder fragment (decimal and hex ints, floats, strings, unary sign, parentheses, the ten operators in flat chains, int/float/str casts, bare and Enum.Member.value references), every environment and every interpretation of float, whenever CPython yields a value the folder yields a value of the same type and content or refuses (agree: no guard; sound/refuse: guard H4 no 0X literal); folding a flat chain equals evaluating CPython\'s left-nested tree. Tied to the code by generated operator tables and three correspondence streams (real LiteralEvaluator.exec vs model with a symbolic-float oracle protocol; CPython eval vs evalPy; octal escape decoder), searched on the real code alone (exec(e) == eval(e) or an application error) including every formerly excluded region. Extended: the second observation point (enum value text in the transpiled output) is modelled (EmitValue, translated relay/literalize.j2): output_agree, output_sound; stream emitvalue.',
	'note': TB + ' Reflections.type_of outcomes are observed, not modelled (C03). Recursion limit modelled as fuel. %-formatting, bytes, f-strings and escapes are outside evalPy (counted as unsupported). Known findings (known_findings.jsonl): output-unescaped-double-quote, output-python-escape-in-cpp-literal; escape-merge-concat was repaired (05486b1).',
	'technique': 'Lean 4 proof (induction on fuel and flat chains, abstract float signature) + generated tables + differential correspondence + CPython oracle search',
	'ref': 'DESIGN.md §5 C17, §10',
}
CHECKS['C18'] = {
	'text': 'Lean theorems over an executable model of BlockParser / DecoratorHelper._parse / Param.parse for every fragment of the inductive grammar (atoms, simple quoted strings possibly containing brackets and the other quote, () [] {} <> groups, unbounded nesting): break_separator equals the exact top-level split (cuts only at top-level delimiters, rejoin, balanced pieces); break_last_block(prefix+group) = (prefix, inside) plus the IndexError branch; decorator path/pieces/join_args and labelled vs positional arguments; parameter type/name/default for every default fragment; first block of parse_bracket is the whole group. Tied to the code by a translator for _all_pair, four correspondence streams over every helper and law searches with an independent scanner on the real helpers. Extended: bracket_spec (exact two-level pre-order group list), termination of _parse/_parse_block/_analyze_entry on every text, the py2cpp call sites (caller_range, caller_throw, caller_dict_comp, caller_pluck), query_any; streams block-dictlike and block-callers.',
	'note': TB + ' Strings are simple (no own quote, no escapes); brackets argument has two characters in the theorems; _analyze_entry/_parse/_parse_block/parse/parse_pair, multi-character delimiters and unbalanced text are correspondence-only; "every further parse_bracket block is balanced" is search-only.',
	'technique': 'Lean 4 proof (induction on an inductive fragment grammar) + differential correspondence + law search with an independent scanner',
	'ref': 'DESIGN.md §5 C18, §10',
}

CHECKS['C02'] = {
	'text': 'Lean theorems: the operator ladder read from data/grammar.lark equals CPython\'s operator table on the common operators (decide over the generated table); for every operator term, with any redundant parentheses, the ladder-driven reference parser reads CPython\'s minimal text into a lark-shaped tree whose CPython-style reading (left-nested BinOp, n-ary BoolOp, Compare chains, UnaryOp) is the term (Tranp.Prec round-trip theorems + chain lemma, unbounded); decision logic of the first-match node-class dispatch over the generated resolver table, iff-characterisations of every function kind and their agreement with Python scoping under three stated coding conventions (counterexample without them). Tied to the code by two translators and three correspondence streams (lark tree vs reference parser; real node class at every tree position vs model; ast.parse vs astOf). Ternary, lambda, calls, chains, literals, comprehensions and statement nesting are checked by search only: canon(nodes(s)) == canon(ast.parse(s)) on generated programs. Extended: group_test for conditional expressions and lambdas in full generality (any nesting and redundant parentheses), prefix_grouping, compare_chain (n-ary Compare with two-word operators), call_arguments (kinds, labels, order).',
	'note': TB + ' lark\'s LALR construction is assumed to return a derivation of the grammar; pyTable is transcribed from Grammar/python.gram and validated by stream pygroup. Fourteen known findings (constructs CPython and grammar.lark both accept but read differently), each with its own key.',
	'technique': 'Lean 4 proof (precedence-climbing inversion, decide over generated tables) + differential correspondence + CPython-ast oracle search',
	'ref': 'DESIGN.md §5 C02, §4 Prec, §10',
}

CHECKS['C01'] = {
	'text': 'Partial (operator core): Lean theorems over an executable model of Py2Cpp operator rendering (operator.py node shapes, proc_binary_operation_expression, unary/ternary/group, the precedence guards added by fix 0598c93/5807b18) that interprets the translated operator templates, i18n table, grammar ladder and CppOperatorPrecedences: for every grammar-producible operator node without a comparison chain the emitted tokens are not fused by C++ lexing, parse under the C++ precedence table and regroup exactly like Python (group; by construction through Tranp.Prec); the emitter\'s table agrees with the C++ table; counterexample for comparison chains; operator semantics agree on the explicit 32-bit / non-negative-% / short-circuit subset (sem, agree); template/ladder totality by decide. Tied to the code by three streams (emit: exact emitted text of random operator trees; cpptable: g++\'s own grouping vs the trusted table; sem: denotations vs instrumented CPython and g++ -fsanitize=undefined). The rest of the property is a failing-input search: generated typed programs → real transpile → g++ -std=c++20 → run → compare with CPython. Extended: group_full (ternary, in/not in, fmod form; unique parse by a wrapper grammar over the C++ table), sem_full/agree_full over an abstract float signature, and a statements core (v = e, return, if/elif/else, while): stmt_decl (declaration placement = scoped reading) and stmt_agree (simulation between Python\'s function-level store and C++ block frames under scopeOK), tied by the stmt stream (model lines = real emitted lines, pyExec = CPython, cExec = g++ UBSan).',
	'note': TB + ' Statements, classes, containers and strings are search-only; floats are outside sem; cppTable/denotePy/denoteCpp are transcriptions validated against g++ and CPython on every run; g++ 12 with std::format shimmed in the driver prelude. 29 known findings, each with its own key (known_findings.jsonl; among them chain-compare, flat:len-arg, flat:dict-get, unsigned:len, cast:nested, the range / enumerate loop forms, comprehension over enumerate, constructor initialiser list, temporary receivers).',
	'technique': 'Lean 4 proof (precedence round trip via Tranp.Prec, decide over translated tables) + differential correspondence + compile-and-run search against CPython',
	'ref': 'DESIGN.md §5 C01, §10',
}
CHECKS['C07'] = {
	'text': 'Partial (exception-normalisation core): Lean theorems over an executable model of tranp\'s exception flow whose class hierarchy and except-clause tables are generated from errors.py, CPython and the AST of procedure.py / parser.py / modules.py / bin/transpile.py / error_render.py: Procedure.exec turns whatever any handler raises (any class, universally quantified) into ok / Errors.Error / pass-through of non-Exceptions; both parser branches map every Exception to Errors.Syntax; Modules.load normalises every Exception of loading and preprocessing (load_normalised); the Interactive loop survives every history of {ok} ∪ Errors.Error outcomes; message and quotation builders are total exactly under stated guards. Tied to the code by six correspondence streams. The bulk of the property — no lookup/assertion/type exception escapes load+transpile, rendering never fails, termination — is a fuzz search on the real pipeline in memory and on disk with stable (class, innermost tranp frame) keys. Extended: termination (exec_steps_bounded, unload_terminates on every import graph, load_terminates, loop_steps_bounded; C11.T1_termination cited for the self-hosted parser), transpile_normalised with transpile_full_counterexample, main_reports, render_stacktrace_total / render_total_all; streams errors-graph, errors-trace, errors-main; regression baseline of normalised crash sites in the evidence.',
	'note': TB + ' Search-only for transpile-stage code outside Procedure and for __build_stacktrace; proc assumes node properties do not raise (counterexample proved otherwise); 10 s CPU cap per input.',
	'technique': 'Lean 4 proof (generic try/except interpreter over generated except tables) + differential correspondence + fuzz search',
	'ref': 'DESIGN.md §5 C07, §10',
}

CHECKS['C03'] = {
	'text': 'Partial (expression core): Lean model of ProceduralResolver, try_operation and TemplateManipulator over the dunder/method table translated from classes.py: every scalar row of the table states CPython\'s result type (dunder, dunder_unary, step_agreement by decide over the whole table); on the agreement core (Core = WellTyped) inference never fails, contains no Unknown (total) and the inferred type denotes the run-time value for every expression, environment and session state (sound_conf, sound); inference is independent of session history (session_independent); template resolution keeps every element type (template). Counterexamples outside the core for the listed known findings. Tied to the code by two streams (real Reflections.type_of vs model; CPython type(eval(e)) vs typeOf∘eval). Scope lookup, inheritance, user classes, enums, user generics and resolve_unknown are search-only: a run-time recorder under CPython vs type_of on generated expressions and whole programs. Extended: user classes with single inheritance and a class-based heap (sound_attr), iteration (sound_iter, iterates_user for both protocol forms, sound_for incl. tuple unpacking), declarations (sound_decl), chain_type, variable lookup through the C08 scope model (var_at, class_scope_rule); stream infer-programs over whole function bodies.',
	'note': TB + ' Fifteen known findings (stub simplifications, Union handling, generic methods through inheritance, literals with empty-first elements), each with its own key; programs CPython rejects although the stub accepts them and operations the stub library does not declare are outside the quantifier.',
	'technique': 'Lean 4 proof (mutual structural induction over expressions, decide over the translated stub table) + differential correspondence + run-time type recorder search',
	'ref': 'DESIGN.md §5 C03, §10',
}
CHECKS['C04'] = {
	'text': 'Partial (session / cache-coherence model): Lean theorems over a model of Modules/Entrypoints/SymbolDB/per-module memo tables/symbol files/transpiler and Procedure stacks with ops load, transpile (may fail midway), unload (cascade), resubmit: the coherence invariant holds initially and after every op incl. failing ones (inv); load and unload leave every other registered module untouched (frame, unload_exact on the key strings incl. prefix names); det: two processes over the same files give the same transpile result (text, render error or load error) whatever their histories (true since fix commits f3f812f, 153b103, 023f8e8); unload;load = fresh load; Runner results are permutation-equivariant. Parsing, ExpandModules and rendering are a parameter with stated locality hypotheses. Tied to the code by two op-sequence streams in one long-lived real App. Byte equality with a fresh process under PYTHONHASHSEED ∈ {0,1,2,random}, Interactive re-submissions, target permutations and frame snapshots are searched on the real code. Extended: det_all over every history incl. library-module unloads (under BaseWorld), unload cascade fuel proved, Module.identity closure walk modelled, cyclic and self-importing pools in the streams (det for them is search-only).',
	'note': TB + ' Hypotheses: dotted module names without #, acyclic imports, no file imports __main__, library base not unloaded in theorems (streams/search cover it), model fuel not exhausted. Hash-seed independence and byte-level equality are search-only.',
	'technique': 'Lean 4 proof (invariants by induction over op sequences, refinement to a reference function of the sources) + differential correspondence + fresh-process oracle search',
	'ref': 'DESIGN.md §5 C04, §10',
}
CHECKS['C05'] = {
	'text': 'Partial: Lean theorems over an executable model of the three cache layers (file system with strictly increasing mtimes, identities exactly as coded incl. the closure-keyed Module.identity of fix a383b4a, glob eviction, non-atomic save, truncation, enabled flag, persistor gates): tree-cache coherence along every history ⇒ warm tree = cold tree; eviction never removes the file being written and coherence survives deleting any cache files (over-matching glob benign); no proper prefix of a compact JSON object/array is bracket-balanced outside strings (truncate); each module\'s warm symbol table equals its cold one for every semantics, graph and acyclic history (symbols); with caching disabled nothing under the cache directory is read or written (disabled). Tied to the code by the cachefs stream (real CLI in temp projects: listing with digests renamed by first appearance + audited file accesses). Rendered-text equality warm vs cold, truncation at every offset and the disabled case are searched on the real code. Extended: output_warm_cold (lockstep simulation: rendered texts, failure status, trees, tables equal warm vs cold for every renderer), parser_key / parser_truncated for the pickled-parser layer, identity modelled as the cycle-safe closure hash of fix c3eaa55, payload codec hypothesis citing C14.rt and C15.truncated_rejected.',
	'note': TB + ' Hypotheses: md5 injective on the identities of a history, the decoder rejects unbalanced text, acyclic imports, module keys without "-". Rendered text is a parameter (text equality and failure-status equality are search-only); the parser pickle is search-only.',
	'technique': 'Lean 4 proof (loader invariants over histories) + differential correspondence with audited file accesses + warm-vs-cold / truncation search',
	'ref': 'DESIGN.md §5 C05, §10',
}
CHECKS['C06'] = {
	'text': 'Partial (runner decision model): header read-back proved on the json.dumps printer model (header_rt; counterexample without trailing newline), regeneration decision (regen), untouched files, -f always forces (force_flag, since fix 4888761), decidable path-overlap check ⇔ injective output paths, fallback-only configurations injective; the fix-point law (plain run = forced run) is proved for all histories under own-source-only outputs, injective hashes and distinct paths, and refuted in general (known findings). Tied to the code by four streams (string primitives, header, paths, real-CLI runner histories); fix-point, header round trip with non-default versions and path correctness vs an independent reference are searched on the real code. Extended: fixpoint_fresh_partial (plain = forced on every path that is not stale, for every transpiler body and history; stale = exactly the known finding), version_bump, meta_lookup_exact / meta_lookup_first with the substring variant as counterexample.',
	'note': TB + ' json.loads, md5 and the transpiler body are parameters; JSON values without floats; glob conditions over [A-Za-z0-9_/.*-]. Three known findings: stale-dependant-output, output-path-collision-prefix, output-path-collision-glob.',
	'technique': 'Lean 4 proof (string-slicing lemmas on the printer, decision logic, history induction) + differential correspondence + fix-point search',
	'ref': 'DESIGN.md §5 C06, §10',
}
CHECKS['C08'] = {
	'text': 'Partial (equivariance of name resolution): for every injective renaming fixing reserved words, symbol lookup (scope walk, class-scope rule, import, library fall-back, inheritance walk), scope/namespace/fullyname construction and declaration merging commute with the renaming on the abstract layer; for well-formed identifier names the string implementation on module#a.b keys (ModuleDSN, startswith/replace/split) computes exactly the encoding of the abstract layer for every function incl. VarsCollector._merged (true since fix 526fc7c). Tied to the code by four streams against both layers. The metamorphic law transpile(r(P)) == r(transpile(P)) on output, symbol keys and type strings, sibling-scope independence and agreement with CPython symtable are searched on the real code. Extended: ClassDomainNaming, aliases and Enum.var_value on both layers (equivariant_naming, equivariant_member_lookup, string refinement), PatternParser identifier regexes (fragment_* theorems), and a site table of every startswith/endswith/in/find/replace/split/re use on strings that can hold user identifiers, each with a theorem, a counterexample or the reason it is unreachable.',
	'note': TB + ' The regex/string post-processing of rendered fragments (py2cpp.py) and the templates are search-only; no multi-module in-memory programs; ASCII identifiers only.',
	'technique': 'Lean 4 proof (equivariance by structural induction; string-layer refinement via codec lemmas) + differential correspondence + metamorphic renaming search',
	'ref': 'DESIGN.md §5 C08, §10',
}
CHECKS['C11'] = {
	'text': 'Partial: Lean theorems over an executable model of the self-hosted engine (SyntaxParser matcher, ErrorCollector, rule.py): termination with an explicit linear fuel bound for every rule set passing a decidable well-formedness check, both shipped rule sets kernel-decided; a tree is returned only if every token was consumed, otherwise Errors.Syntax; the tree\'s leaves are exactly the tokens matched by named terminals, in source order; ladder rules yield flat chains (the five py ladders kernel-decided); the error line is within range under the source-map guard (counterexample for EOF-derived tokens = known finding). Tied to the code by the rules translator (regexps as classification tables evaluated by the real re) and three streams on real token lists. canon(engine tree) == canon(CPython ast) on grammar-derived sentences and the behaviour on mutated texts are search-only. Extended: ladder_group (the engine\'s flat chains over a tower of ladder rules are grouped as Tranp.Prec groups the same tokens) with group_partial_arith / group_partial_bool / group_levels_cpython for the py ladders; T2_else_syntax_guarded.',
	'note': TB + ' Regexps and the tokenizer enter as trusted inputs (real token lists / classification tables); agreement with CPython grouping is search-only. Four known findings: error-line:eof-derived-cause-token, group:walrus-over-ternary, cost:exponential-in-nesting (parentheses, blocks).',
	'technique': 'Lean 4 proof (fuel-bounded matcher, decide +kernel over translated rule sets) + differential correspondence + CPython-ast oracle search',
	'ref': 'DESIGN.md §5 C11, §10',
}
CHECKS['C12'] = {
	'text': 'Partial: Lean theorems over Rules.from_ast, Prettier, Pattern.make, render_rules and the engine: AST-level round trip in both directions; both fixed points kernel-evaluated on the real token lists of gram.lark and py_gram.lark incl. the exact text of py_rules.py; the text-level law reduced to one hypothesis (the engine parses the printout into toAst g) and kernel-checked on recorded witnesses. Tied to the code by the translator and two streams; the round-trip law on generated grammars, module texts on disk and compiled-vs-original rules on sentences are searched on the real code. Extended: gram_lex (the C13 lexer model on the embedded text of gram.lark yields the dumped token list, kernel-evaluated) and fixed_gram_text; py_gram.lark\'s token list stays trusted input.',
	'note': TB + ' The general text-level law is search-only; the gram tokenizer enters as real token lists.',
	'technique': 'Lean 4 proof (structural induction, decide +kernel on translated data) + differential correspondence + round-trip search',
	'ref': 'DESIGN.md §5 C12, §10',
}

# what rounds 5 and 6 added to the claimed level (appended to 'text'; details in DESIGN.md §10.6, §10.7)
ADD = {
	'C01': 'Rounds 5-6: break/continue and augmented assignment in the statements core (stmt_agree over all outcomes), statement templates read as C++ and pinned by stmt_forms, for_test_reparses; search selects programs so that every generator feature occurs at least twice; 22 keyed known findings.',
	'C02': 'Rounds 5-6: candidate order of every tag as theorems over the generated resolver table; every match_feature body pinned by a translator (match_feature_consts/_owners/_words), classify_enum / classify_class_def for any number and position of bases; node kind compared wherever classification goes by a name.',
	'C03': 'Rounds 5-6: member_depth_first (multiple inheritance, tree-shaped hierarchies), Model/InferOps (try_operation over user classes incl. the inherits loop, spread): user_operator_left_decides, user_chain_type, spread_items, sound_spread with counterexample theorems for the listed findings.',
	'C04': 'Rounds 5-6: Modules.load, the four unload methods, Py2Cpp.transpile and Interactive.rebuild_module are read from the source as programs and proved equal to the model (load_generated, unload_generated, transpile_generated, resubmit_generated); the shipped library closure generated and decided (lib_closure_reach, lib_closure_closed, baseWorld_load_shipped_partial); failed_load_leaves_no_residue for every failure kind.',
	'C05': 'Rounds 5-6: the tree key follows the generated identity (tree_key_inputs, tree_key_covers_bytes: the key covers the file bytes exactly when the identity holds the content hash, as it does after fix fe592d9 in /repo); old-generation and recurring-mtime histories in the search.',
	'C06': 'Rounds 5-6: compared_inputs_distinct (the five compared header fields read five pairwise different source expressions, generated), skip_implies_equal_header_inputs, writer model (whole-content write) tied by a Writer stream; forced reference run into an empty directory.',
	'C07': 'Rounds 5-6: the interactive loop with requests as lists of lines and the exit test read from the source (quit_test_total, request_survives, session_survives, tty_request_shape), unload_clears_importers, writer_flush_outcome; every provoked error is rendered through ErrorRender for every node.',
	'C08': 'Rounds 5-6: generated table of every comparison of a user-controlled name with constant words and the type guards around it (name_sites_guarded), site_table_defects, view-helper model; renamings that create or destroy a prefix/suffix/infix relation between every pair of identifiers that can meet.',
	'C09': 'Rounds 5-6: chain_semantics, shipped_* theorems over the generated handler table; annotation = body shape for all 165 shipped getters (shipped_annotation_matches_body), WF reduced to clause 2 for shipped-shaped trees (shipped_wf_reduces_to_under); handler layouts fallback/dedicated/mixed with a dispatch oracle.',
	'C10': 'Rounds 5-6: ASTFinder.find/exists/full_pathfy(depth) (find_spec, find_sound, find_complete), pluck_deindexed (index-less lookup = last child with the tag), relativefy_exact, DSN algebra, Resolver.load, and the depth hypothesis of expand_spec_full discharged over a generated child table of the grammar (grammar_chain_free, expand_spec_full_grammar).',
	'C11': 'Rounds 5-6: soundness of the engine against a declarative reading of the rule set (T6_sound, T6_complete_counterexample, shape theorems for ternary / walrus / prefix operators over the generated table), T7_ordered_choice, T7_greedy, parse_history_free; cost search counting _match_symbol calls (known findings cost:exponential-in-nesting).',
	'C12': 'Rounds 5-6: history search on the grammar side (one parser over sequences of grammar texts), gram-check-file search through real files (LF/CRLF, raw control characters in terminals), translator pin of how gram_check opens its files; known finding render-import:quote-or-line-break-in-terminal.',
	'C13': 'Rounds 5-6: the control-flow shape of parse_symbol / handle_white_space / handle_symbol generated from the source and proved equal to the model (shape_*), first_token_unique, lex_unique, layout theorems for blanks, comments, head, tail and tight comments (layout_closure_all), end-of-input boundary table in the CPython search.',
	'C14': 'Rounds 5-6: exact round trip including via and the entries of other modules (rt_exact, import_frame, rt_unload_exact), the JSON text level (text_rt, export_text_rt, rt_text_exact), row_schema_generated from serializer.py/sequence.py, export_history_independent.',
	'C15': 'Rounds 5-6: cache_file_injective; shape_identity accepts the pinned identity entries followed by nothing or by the content hash; wide nodes with empty slots and statement-free modules in the searches.',
	'C16': 'Rounds 5-6: span_begins_at_first_token / span_ends_at_last_token over generated FIRST/LAST tables, span_region, span_holds_exactly_own_tokens, tree_quotation, quotation_shape, collector_shape; stored files with CRLF / bare CR judged against the bytes on disk; known finding comment-span-includes-cr.',
	'C17': 'Rounds 5-6: sound / agree / refuse and output_agree / output_sound (folded value and emitted token), Unicode decimal digits in pyInt, \\u/\\U escapes, and the C++ reading of an inlined string value (Model/CppLiteral: cpp_reads_python, cpp_escape_counterexample, output_string_cpp; stream cppread against g++); source pins of the 20 modelled evaluator methods.',
	'C18': 'Rounds 5-6: pair_spec / parse_dict_spec (the parse_pair law, unbounded nesting), format_spec, decorator_total (query_any unconditional), quoted_literal_spec, var_type_origin_spec over the generated regex term, skip_string_in_group, sep_multichar_spec; call sites keyed by (function, helper).',
	'C19': 'Rounds 5-6: raising factories (invoke_raising, resolve_raising), resolve_cached_creates_nothing, and di.py read by a translator: methods_generated (19 generated method bodies equal the model), code_effects / model_effects, containers_own_their_dicts, clone_combine_generated.',
}

NOT_YET = {
}


def main() -> None:
	with open(os.path.join(HERE, 'properties.jsonl'), encoding='utf-8') as f:
		ids = [json.loads(l)['id'] for l in f if l.strip()]
	checks = []
	for pid in ids:
		if pid not in CHECKS:
			continue
		c = CHECKS[pid]
		checks.append({
			'property_id': pid,
			'quick_cmd': f'./check {pid} --tier quick',
			'thorough_cmd': f'./check {pid} --tier thorough',
			'evidence_file': f'evidence/{pid}.json',
			'replay_cmd_template': f'./check {pid} --replay {{path}}',
			'engine': 'lean4-model+correspondence',
			'level_claimed': {'category': 'proof', 'text': c['text'] + (' ' + ADD[pid] if pid in ADD else ''), 'design_ref': c['ref']},
			'level_note': c['note'],
			'technique': c['technique'],
		})
	na = [{'property_id': pid, 'reason': NOT_YET.get(pid, 'check not built yet in this round (planned as Lean 4 proof + correspondence, see DESIGN.md §5); not claimed until it runs clean on the unchanged tree')}
		for pid in ids if pid not in CHECKS]
	manifest = {
		'version': 1,
		'setup_cmd': './setup.sh',
		'hooks': {
			'guard': 'TRANP_VERIF',
			'enable': 'no hooks: every observation goes through public functions in-process (DESIGN.md §2.7)',
			'baseline_off_cmd': 'cd /repo && /venv/bin/python -m pytest -ra -q -p no:cacheprovider --timeout=900 --continue-on-collection-errors',
			'source_commits': [],
			'add_only': True,
		},
		'engines': [{
			'name': 'lean4-model+correspondence',
			'path': 'lean/',
			'serves_properties': [c['property_id'] for c in checks],
			'kind_free_text': 'Lean 4.33 library of executable models + property theorems (lean/Tranp), translator (translate/), Python correspondence/search harness (harness/), line-protocol driver (lean/Tranp/Driver.lean, compiled exe)',
		}],
		'checks': checks,
		'not_applicable': na,
		'notes': 'All checks: ./check <id> [--tier quick|thorough] [--replay FILE]; VERIF_SEED selects the PRNG seed. Exit 0 ok, 1 VIOLATION, 2 infrastructure failure.',
	}
	with open(os.path.join(HERE, 'MANIFEST.json'), 'w', encoding='utf-8') as f:
		json.dump(manifest, f, indent=1, ensure_ascii=False)
		f.write('\n')


if __name__ == '__main__':
	main()
