"""Regenerates MANIFEST.json from the per-property table below (keeps the file schema-valid at all times)."""
import json
import os

HERE = os.path.dirname(os.path.abspath(__file__))

TB = 'Lean 4.33 kernel + {propext, Classical.choice, Quot.sound}; hand-written model tied to /repo by translator + correspondence streams; harness 3.12 shim; CPython as oracle.'

CHECKS = {
	'C10': {
		'text': 'Lean theorems over an executable model of ASTFinder/EntryPath/EntryCache/Nodes/NodeResolver: pluck∘full_pathfy = id for every tree, paths distinct and as many as entries, path-string codec, ids = pre-order rank, resolver order-independence for every feature function. Tied to the code by two correspondence streams (random EntryOfDict trees with synthetic node classes; lark parse trees of real modules) and a law search on the real code.',
		'note': TB + ' match_feature of the real node classes is assumed to be a pure function of (tree, path); validated by query permutations on real modules.',
		'technique': 'Lean 4 proof (structural induction over nested tree) + differential correspondence with the Python implementation',
		'ref': 'DESIGN.md §5 C10',
	},
}

CHECKS['C09'] = {
	'text': 'Full on the model: for every node tree satisfying WF and every handler program that does not catch nested failures, Lean proves each handler event is exactly the per-property results of its own children (single/list, order), sibling results never leak, exec yields exactly one result and restores the stack-of-stacks, and nested runs are isolated (the last for all trees). Tied to the code by five correspondence streams (corpus, synthetic Node subclasses through the real Node.procedural/Procedure, malformed trees, real modules, generated programs) and an identity-valued search on the real Procedure.',
	'note': TB + ' WF (terminal⇒no props; empty property expansion⇒empty _under_expand; no repeated prop key; annotation = run-time shape) is an obligation on definition/*.py that is checked (every exported tree + class table), not proved; each clause shown necessary by a kernel-evaluated witness. Nested-processing sentence is false for a handler that catches a nested failure (exec lacks finally): no such handler exists in tranp; witness replayed as information.',
	'technique': 'Lean 4 stack-machine model refined to a denotational semantics by mutual structural induction + differential correspondence + identity-valued search',
	'ref': 'DESIGN.md §5 C09, §10',
}

CHECKS['C19'] = {
	'text': 'Lean theorems over an executable model of DI/LazyDI (dictionaries exactly as the code keeps them, heap of containers, fuelled resolution): forward simulation onto a per-symbol Spec for every op sequence (refine, run_refines); singleton per binding generation; rebind freshness; frame of combine/clone; per-clone lazy materialisation; ValueError on unknown symbols; combine_right and invoke_fill for every history (true since the fix commits c3fd82c, 6d5a231); fuel sufficiency on ranked histories. Tied to the code by a differential op-sequence stream and searched against an independent Python reference of the ideal Spec.',
	'note': TB + ' Generation counters are replaced by trace conditions. Dict non-aliasing is by correspondence (value-semantics model). Symbols are assumed importable with distinct full names; factories take positional parameters without defaults.',
	'technique': 'Lean 4 refinement proof (forward simulation + invariants by induction over op lists and fuel) + differential correspondence + reference-model search',
	'ref': 'DESIGN.md §5 C19, §10',
}
CHECKS['C13'] = {
	'text': 'Lean theorems over an executable model of tranp Lexer/Tokenizer/SourceMap parameterised by TokenDefinition() and gram_tokenizer() as dumped on every run: progress (termination), concat (raw tokens reproduce the source), totality over the alphabet, the span law, INDENT/DEDENT accounting (balanced iff every increase is one unit; counterexample for over-indented blocks), width invariance of _rebuild, post_filter on single logical lines. Tied to the code by three correspondence streams (generated sources, real modules and grammar files, malformed sources and token lists). Equality with CPython tokenize on the documented subset, layout rewrites, balance and the concat/span laws are searched on the real code.',
	'note': TB + ' The full token-level layout sentence (across line breaks) and the character-level rewrites are search-only. CPython 3.12 tokenize is the oracle on the documented lexical subset (harness/lexgen.py).',
	'technique': 'Lean 4 proof (induction over fuel / token lists, decide over generated tables) + differential correspondence + metamorphic and CPython-oracle search',
	'ref': 'DESIGN.md §5 C13, §10',
}

NOT_YET = {
}


def main() -> None:
	with open(os.path.join(HERE, 'properties.jsonl'), encoding='utf-8') as f:
		ids = [json.loads(l)['id'] for l in f if l.strip()]
	checks = []
	for pid in ids:
		if pid not in CHECKS:
			continue
		c = CHECKS[pid]
		checks.append({
			'property_id': pid,
			'quick_cmd': f'./check {pid} --tier quick',
			'thorough_cmd': f'./check {pid} --tier thorough',
			'evidence_file': f'evidence/{pid}.json',
			'replay_cmd_template': f'./check {pid} --replay {{path}}',
			'engine': 'lean4-model+correspondence',
			'level_claimed': {'category': 'proof', 'text': c['text'], 'design_ref': c['ref']},
			'level_note': c['note'],
			'technique': c['technique'],
		})
	na = [{'property_id': pid, 'reason': NOT_YET.get(pid, 'check not built yet in this round (planned as Lean 4 proof + correspondence, see DESIGN.md §5); not claimed until it runs clean on the unchanged tree')}
		for pid in ids if pid not in CHECKS]
	manifest = {
		'version': 1,
		'setup_cmd': './setup.sh',
		'hooks': {
			'guard': 'TRANP_VERIF',
			'enable': 'no hooks: every observation goes through public functions in-process (DESIGN.md §2.7)',
			'baseline_off_cmd': 'cd /repo && /venv/bin/python -m pytest -ra -q -p no:cacheprovider --timeout=900 --continue-on-collection-errors',
			'source_commits': [],
			'add_only': True,
		},
		'engines': [{
			'name': 'lean4-model+correspondence',
			'path': 'lean/',
			'serves_properties': [c['property_id'] for c in checks],
			'kind_free_text': 'Lean 4.33 library of executable models + property theorems (lean/Tranp), translator (translate/), Python correspondence/search harness (harness/), line-protocol driver (lean/Tranp/Driver.lean, compiled exe)',
		}],
		'checks': checks,
		'not_applicable': na,
		'notes': 'All checks: ./check <id> [--tier quick|thorough] [--replay FILE]; VERIF_SEED selects the PRNG seed. Exit 0 ok, 1 VIOLATION, 2 infrastructure failure.',
	}
	with open(os.path.join(HERE, 'MANIFEST.json'), 'w', encoding='utf-8') as f:
		json.dump(manifest, f, indent=1, ensure_ascii=False)
		f.write('\n')


if __name__ == '__main__':
	main()
